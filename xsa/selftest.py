"""Checker self-test (thorough tier): every rule is re-run on variants of the tree.

A *mutant* breaks one rule instance (and still compiles); the rule must report it.
A *twin* is a behaviour-preserving rewrite of the same construct; the rule must stay silent.
Variants are produced by an exact, single-occurrence text substitution on one source file and
analysed through the in-memory overlay of ``Index`` (nothing is written under /repo or /verif;
rules that need mypy facts get a scratch copy under a temp dir which is removed afterwards).
A variant whose anchor text no longer occurs exactly once is SKIPped (the tree has moved on).
"""
from __future__ import annotations

import ast
import importlib
import os
from concurrent.futures import ProcessPoolExecutor
from dataclasses import dataclass
from typing import Optional

from .index import AnalysisError, Index


@dataclass
class Variant:
    name: str
    prop: str
    file: str
    old: str
    new: str
    fire: Optional[str]        # rule id that must report (mutant) or None (twin: must stay silent)
    note: str = ''
    edits: tuple = ()          # further (file, old, new) edits
    needs_types: bool = False


SEEDED = os.path.join(os.path.dirname(os.path.dirname(os.path.abspath(__file__))), 'seeded')


def _load_variants(prop: str) -> list[Variant]:
    try:
        mod = importlib.import_module(f'xsa.mutants.{prop.lower()}')
        out = list(mod.VARIANTS)
    except ModuleNotFoundError:
        out = []
    # changes seeded by independent sub-agents (confirmed by hand, see seeded/<name>/meta.json): those a rule detects must keep firing
    if os.path.isdir(SEEDED):
        import json
        for name in sorted(os.listdir(SEEDED)):
            mp = os.path.join(SEEDED, name, 'meta.json')
            if not os.path.exists(mp):
                continue
            meta = json.load(open(mp))
            if meta.get('property') != prop or str(meta.get('detected_now_by', '')).startswith('not detected'):
                continue
            import re as _re
            toks = _re.findall(r'C\d\d\.[a-z]\+?', str(meta['detected_now_by']))
            mine = [t for t in toks if t.startswith(prop)]
            if not mine:
                continue     # detected by a rule of another property only
            rule = mine[0]
            out.append(Variant(f'seeded:{name}', prop, os.path.join(SEEDED, name, 'patch.diff'), '', '', rule.split('.')[0] if '.' not in rule else rule,
                               note='seeded patch'))
    return out


def _apply_patch(v: Variant, repo: str) -> Optional[dict[str, str]]:
    """overlay produced by a unified diff (applied with `git apply` on a scratch copy of the touched files)."""
    import re
    import shutil
    import subprocess
    import tempfile
    diff = open(v.file).read()
    files = re.findall(r'^\+\+\+ b/(\S+)', diff, flags=re.M)
    tmp = tempfile.mkdtemp(prefix='xsa-seed-')
    try:
        for f in files:
            os.makedirs(os.path.dirname(os.path.join(tmp, f)), exist_ok=True)
            try:
                shutil.copy(os.path.join(repo, f), os.path.join(tmp, f))
            except OSError:
                return None
        r = subprocess.run(['git', 'apply', '--unsafe-paths', '-p1', v.file], cwd=tmp, capture_output=True, text=True)
        if r.returncode != 0:
            return None
        out = {}
        for f in files:
            with open(os.path.join(tmp, f), 'rb') as fp:
                out[f] = fp.read().decode('utf-8-sig')
        return out
    finally:
        shutil.rmtree(tmp, ignore_errors=True)


def apply_variant(v: Variant, repo: str) -> Optional[dict[str, str]]:
    overlay = {}
    for file, old, new in ((v.file, v.old, v.new),) + tuple(v.edits):
        path = os.path.join(repo, file)
        if file in overlay:
            src = overlay[file]
        else:
            try:
                with open(path, 'rb') as fp:
                    src = fp.read().decode('utf-8-sig')
            except OSError:
                return None
        if src.count(old) != 1:
            return None
        src = src.replace(old, new)
        try:
            ast.parse(src)
        except SyntaxError:
            raise AnalysisError(f'SELFTEST-FAIL variant {v.name} does not compile')
        overlay[file] = src
    return overlay


def _run_one(args) -> tuple[str, str, str]:
    prop, name, repo, tier = args
    from .report import collect
    v = next(x for x in _load_variants(prop) if x.name == name)
    try:
        overlay = _apply_patch(v, repo) if v.file.endswith('patch.diff') else apply_variant(v, repo)
    except AnalysisError as e:
        return name, 'FAIL', str(e)
    if overlay is None:
        return name, 'SKIP', 'anchor text not found exactly once'
    mod = importlib.import_module(f'xsa.rules.{prop.lower()}')
    rules = list(mod.RULES) + (list(getattr(mod, 'THOROUGH', [])) if tier == 'thorough' else [])
    try:
        idx = Index(repo, overlay=overlay)
        ctx, viol, known = collect(prop, rules, tier, idx)
    except AnalysisError as e:
        # an analysis error on a mutant means the checker refuses to pass it: acceptable for a
        # mutant (fail-closed), a failure for a twin
        if v.fire is not None:
            return name, 'CAUGHT', f'fail-closed: {e}'
        return name, 'FAIL', f'twin raised analysis error: {e}'
    except Exception as e:  # pragma: no cover
        return name, 'FAIL', f'internal error {type(e).__name__}: {e}'
    if v.fire is not None:
        hit = [o for o in viol if o.rule == v.fire or o.rule.startswith(v.fire)]
        if hit:
            return name, 'CAUGHT', f'{hit[0].rule} {hit[0].loc} {hit[0].instance[:80]}'
        if viol:
            return name, 'FAIL', f'reported by {viol[0].rule} instead of {v.fire}'
        return name, 'FAIL', 'mutant not reported'
    if viol:
        return name, 'FAIL', f'twin flagged by {viol[0].rule} {viol[0].loc}: {viol[0].instance[:80]}'
    return name, 'SILENT', ''


def run_for(prop: str, ctx) -> dict:
    variants = _load_variants(prop)
    if not variants:
        return {'selftest': {'variants': 0}}
    repo = ctx.idx.repo
    jobs = [(prop, v.name, repo, 'thorough') for v in variants]
    results = []
    workers = min(16, len(jobs))
    with ProcessPoolExecutor(max_workers=workers) as ex:
        for r in ex.map(_run_one, jobs):
            results.append(r)
    # behaviour-preserving renames of locals (all locals of one analysed function at once): must stay silent
    from .robust import TYPED, sweep
    rn = sweep(prop, star_only=True, cap=6 if prop in TYPED else 60, workers=16, repo=repo)
    for q, n, o, d in rn:
        results.append((f'rename-locals:{q.split(".", 1)[-1]}', 'SILENT' if o in ('ok', 'skip') else 'FAIL',
                        '' if o in ('ok', 'skip') else f'{o}: {d}'))
    # behaviour-preserving statement rewrites (operand swap, if/else inversion, split conjunctions, guard clauses, annotations,
    # casts, inserted logging/asserts), every applicable site of one analysed function at once: must stay silent
    from .robust import sweep_rewrites
    rw = sweep_rewrites(prop, cap=8 if prop in TYPED else 64, workers=16, repo=repo)
    for q, k, o, d in rw:
        if o == 'skip':
            continue
        results.append((f'rewrite-{k}:{q.split(".", 1)[-1]}', 'SILENT' if o == 'ok' else 'FAIL', '' if o == 'ok' else f'{o}: {d}'))
    fails = [r for r in results if r[1] == 'FAIL']
    summary = {
        'variants': len(results),
        'mutants_caught': sum(1 for r in results if r[1] == 'CAUGHT'),
        'twins_silent': sum(1 for r in results if r[1] == 'SILENT' and not r[0].startswith(('rename-locals:', 'rewrite-'))),
        'rename_variants_silent': sum(1 for r in results if r[1] == 'SILENT' and r[0].startswith('rename-locals:')),
        'rewrite_variants_silent': sum(1 for r in results if r[1] == 'SILENT' and r[0].startswith('rewrite-')),
        'skipped': sum(1 for r in results if r[1] == 'SKIP'),
        'failed': len(fails),
        'results': [{'variant': n, 'outcome': o, 'detail': d} for n, o, d in results],
    }
    for n, o, d in results:
        print(f'  selftest {n}: {o} {d}', flush=True)
    if fails:
        raise AnalysisError('SELFTEST-FAIL ' + '; '.join(f'{n}: {d}' for n, _, d in fails))
    return {'selftest': summary}


def main(argv=None) -> int:
    import sys
    props = argv or sys.argv[1:]
    rc = 0
    for p in props:
        class C:  # minimal ctx
            pass
        c = C()
        c.idx = Index()
        try:
            run_for(p.upper(), c)
        except AnalysisError as e:
            print(e)
            rc = 2
    return rc


if __name__ == '__main__':
    import sys
    sys.exit(main())
