"""Small AST helpers shared by the rules."""
from __future__ import annotations

import ast
from typing import Callable, Iterator, Optional

from .cfg import _walk_no_nested as walk_no_nested  # noqa: F401


def text(node: Optional[ast.AST]) -> str:
    return ast.unparse(node) if node is not None else ''


def calls(node: ast.AST, attr: Optional[str] = None, recv: Optional[str] = None,
          name: Optional[str] = None, nested: bool = False) -> Iterator[ast.Call]:
    """Call nodes under ``node``. attr: method name; recv: unparse text of the receiver;
    name: plain function name."""
    it = ast.walk(node) if nested else walk_no_nested(node)
    for n in it:
        if not isinstance(n, ast.Call):
            continue
        f = n.func
        if attr is not None:
            if isinstance(f, ast.Attribute) and f.attr == attr and (recv is None or text(f.value) == recv):
                yield n
        elif name is not None:
            if isinstance(f, ast.Name) and f.id == name:
                yield n
            elif isinstance(f, ast.Attribute) and f.attr == name and recv is None:
                pass
        else:
            yield n


def call_name(c: ast.Call) -> str:
    f = c.func
    if isinstance(f, ast.Attribute):
        return f.attr
    if isinstance(f, ast.Name):
        return f.id
    return ''


def names_in(node: ast.AST) -> set[str]:
    return {n.id for n in ast.walk(node) if isinstance(n, ast.Name)}


def attr_chains(node: ast.AST) -> set[str]:
    """All dotted attribute chains (``self.a.b``) occurring under node."""
    out = set()
    for n in ast.walk(node):
        if isinstance(n, (ast.Attribute, ast.Name)):
            try:
                out.add(ast.unparse(n))
            except Exception:
                pass
    return out


def get_arg(c: ast.Call, pos: int, kw: Optional[str] = None) -> Optional[ast.AST]:
    if kw is not None:
        for k in c.keywords:
            if k.arg == kw:
                return k.value
    if pos is not None and pos < len(c.args) and not any(isinstance(a, ast.Starred) for a in c.args[:pos + 1]):
        return c.args[pos]
    return None


_MIRROR = {ast.Lt: ast.Gt, ast.Gt: ast.Lt, ast.LtE: ast.GtE, ast.GtE: ast.LtE, ast.Eq: ast.Eq, ast.NotEq: ast.NotEq,
           ast.Is: ast.Is, ast.IsNot: ast.IsNot}
_NEGATE = {ast.Lt: ast.GtE, ast.Gt: ast.LtE, ast.LtE: ast.Gt, ast.GtE: ast.Lt, ast.Eq: ast.NotEq, ast.NotEq: ast.Eq,
           ast.Is: ast.IsNot, ast.IsNot: ast.Is, ast.In: ast.NotIn, ast.NotIn: ast.In}
_SYM = {ast.Lt: '<', ast.Gt: '>', ast.LtE: '<=', ast.GtE: '>=', ast.Eq: '==', ast.NotEq: '!=',
        ast.Is: 'is', ast.IsNot: 'is not', ast.In: 'in', ast.NotIn: 'not in'}


def relation(expr: ast.AST, is_a: Callable[[str], bool], is_b: Callable[[str], bool]) -> Optional[str]:
    """If ``expr`` is (a possibly negated) binary comparison between an operand matching ``is_a``
    and one matching ``is_b`` return the operator oriented as ``a OP b``; else None."""
    neg = False
    while isinstance(expr, ast.UnaryOp) and isinstance(expr.op, ast.Not):
        neg = not neg
        expr = expr.operand
    if not isinstance(expr, ast.Compare) or len(expr.ops) != 1:
        return None
    op = type(expr.ops[0])
    l, r = text(expr.left), text(expr.comparators[0])
    if neg:
        if op not in _NEGATE:
            return None
        op = _NEGATE[op]
    if is_a(l) and is_b(r):
        return _SYM.get(op)
    if is_a(r) and is_b(l):
        if op not in _MIRROR:
            return None
        return _SYM.get(_MIRROR[op])
    return None


def find_relations(node: ast.AST, is_a, is_b) -> list[tuple[ast.AST, str]]:
    """All comparisons (with enclosing ``not`` folded) under ``node`` relating a to b."""
    out = []
    skip = set()
    for n in ast.walk(node):
        if id(n) in skip:
            continue
        if isinstance(n, ast.UnaryOp) and isinstance(n.op, ast.Not):
            r = relation(n, is_a, is_b)
            if r is not None:
                out.append((n, r))
                inner = n
                while isinstance(inner, ast.UnaryOp):
                    inner = inner.operand
                    skip.add(id(inner))
        elif isinstance(n, ast.Compare):
            r = relation(n, is_a, is_b)
            if r is not None:
                out.append((n, r))
    return out


def is_none_test(expr: ast.AST, subject: Optional[str] = None) -> Optional[tuple[str, bool]]:
    """``x is None`` -> (x, True); ``x is not None`` -> (x, False)."""
    neg = False
    while isinstance(expr, ast.UnaryOp) and isinstance(expr.op, ast.Not):
        neg = not neg
        expr = expr.operand
    if isinstance(expr, ast.Compare) and len(expr.ops) == 1 and isinstance(expr.comparators[0], ast.Constant) \
            and expr.comparators[0].value is None and isinstance(expr.ops[0], (ast.Is, ast.IsNot)):
        is_none = isinstance(expr.ops[0], ast.Is)
        if neg:
            is_none = not is_none
        s = text(expr.left)
        if subject is None or s == subject:
            return s, is_none
    return None


def body_of(func: ast.AST) -> list[ast.stmt]:
    """Function body without the docstring."""
    b = list(func.body)
    if b and isinstance(b[0], ast.Expr) and isinstance(b[0].value, ast.Constant) and isinstance(b[0].value.value, str):
        b = b[1:]
    return b


def returns(func: ast.AST) -> list[ast.Return]:
    return [n for n in walk_no_nested(func) if isinstance(n, ast.Return)]


def stmts_in(func: ast.AST) -> Iterator[ast.stmt]:
    for n in walk_no_nested(func):
        if isinstance(n, ast.stmt) and n is not func:
            yield n


def handler_type_names(h: ast.ExceptHandler) -> list[str]:
    t = h.type
    if t is None:
        return ['BaseException']
    elts = t.elts if isinstance(t, ast.Tuple) else [t]
    out = []
    for e in elts:
        out.append(ast.unparse(e))
    return out


def enclosing_map(func: ast.AST) -> dict[int, ast.AST]:
    """id(node) -> parent node for every node under func."""
    par = {}
    for n in ast.walk(func):
        for ch in ast.iter_child_nodes(n):
            par[id(ch)] = n
    return par


def ancestors(node: ast.AST, parents: dict[int, ast.AST]) -> Iterator[ast.AST]:
    cur = parents.get(id(node))
    while cur is not None:
        yield cur
        cur = parents.get(id(cur))


def enclosing_try_handlers(node: ast.AST, parents: dict[int, ast.AST]) -> list[tuple[ast.Try, list[ast.ExceptHandler]]]:
    """Try statements whose *body* encloses ``node`` (innermost first)."""
    out = []
    child = node
    for anc in ancestors(node, parents):
        if isinstance(anc, ast.Try):
            if any(child is s for s in anc.body):
                out.append((anc, anc.handlers))
        if isinstance(anc, (ast.FunctionDef, ast.AsyncFunctionDef, ast.Lambda)):
            break
        child = anc
    return out
