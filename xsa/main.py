"""Command line driver:  check <PROPERTY> [--tier quick|thorough] [--repo DIR] [--no-evidence]"""
from __future__ import annotations

import argparse
import importlib
import os
import sys


def run(prop: str, tier: str, repo: str | None = None, write_evidence: bool = True, quiet: bool = False,
        selftest: bool = True) -> int:
    import time
    t0 = time.time()
    from .index import AnalysisError, Index
    from .report import run_property
    try:
        mod = importlib.import_module(f'xsa.rules.{prop.lower()}')
    except ModuleNotFoundError:
        print(f'ANALYSIS-ERROR property={prop} no rule module')
        return 2
    rules = list(mod.RULES)
    if tier == 'thorough':
        rules += list(getattr(mod, 'THOROUGH', []))
    extra = None
    if tier == 'thorough' and selftest and repo is None:
        from . import selftest as st

        def extra(ctx, _prop=prop):
            return st.run_for(_prop, ctx)
    try:
        idx = Index(repo) if repo else Index()
    except AnalysisError as e:
        print(f'ANALYSIS-ERROR property={prop} {e}')
        return 2
    return run_property(prop, rules, tier, idx=idx, write_evidence=write_evidence, quiet=quiet, extra=extra, t0=t0)


def main(argv=None) -> int:
    ap = argparse.ArgumentParser(prog='check')
    ap.add_argument('property')
    ap.add_argument('--tier', default=os.environ.get('VERIF_TIER', 'quick'), choices=['quick', 'thorough'])
    ap.add_argument('--repo', default=None, help='analyse another tree (self-test); evidence is not written')
    ap.add_argument('--no-evidence', action='store_true')
    ap.add_argument('--no-selftest', action='store_true')
    a = ap.parse_args(argv)
    return run(a.property.upper(), a.tier, a.repo, write_evidence=not a.no_evidence and a.repo is None,
               selftest=not a.no_selftest)


if __name__ == '__main__':
    sys.exit(main())
