"""L4: data tables read out of the source with ``ast`` (nothing is imported)."""
from __future__ import annotations

import ast
from dataclasses import dataclass, field
from typing import Any, Optional

from .index import AnalysisError, Index, ModuleInfo
from .astutil import text


@dataclass
class FacetRef:
    kind: str            # 'element' (an Element(tag, value=…)) or 'callable'
    tag: str = ''        # e.g. nm.XSD_PATTERN
    value: Optional[str] = None
    name: str = ''       # for callables / named elements
    node: Optional[ast.AST] = None


@dataclass
class Builtin:
    version: str
    name: str                       # e.g. 'nm.XSD_INTEGER'
    node: ast.Dict
    fields: dict[str, ast.AST]
    facets: list[FacetRef] = field(default_factory=list)

    @property
    def base(self) -> Optional[str]:
        b = self.fields.get('base_type')
        return text(b) if b is not None else None

    @property
    def python_type(self) -> str:
        p = self.fields.get('python_type')
        if isinstance(p, ast.Tuple):
            return text(p.elts[0])
        return text(p)

    @property
    def to_python(self) -> str:
        t = self.fields.get('to_python')
        return text(t) if t is not None else self.python_type

    @property
    def from_python(self) -> str:
        t = self.fields.get('from_python')
        return text(t) if t is not None else 'str'


def _resolve_tuple(m: ModuleInfo, node: ast.AST, depth=0) -> list[ast.AST]:
    if depth > 6:
        raise AnalysisError('builtin table: nesting too deep')
    if isinstance(node, ast.Tuple):
        return list(node.elts)
    if isinstance(node, ast.Name):
        if node.id not in m.assigns:
            raise AnalysisError(f'builtin table: name {node.id} not a module-level assignment')
        return _resolve_tuple(m, m.assigns[node.id], depth + 1)
    if isinstance(node, ast.BinOp) and isinstance(node.op, ast.Add):
        return _resolve_tuple(m, node.left, depth + 1) + _resolve_tuple(m, node.right, depth + 1)
    raise AnalysisError(f'builtin table: unsupported construct `{text(node)[:40]}`')


def _facet(m: ModuleInfo, e: ast.AST) -> FacetRef:
    name = ''
    if isinstance(e, ast.Name) and e.id in m.assigns:
        name = e.id
        e = m.assigns[e.id]
    if isinstance(e, ast.Call) and text(e.func).split('.')[-1] == 'Element':
        tag = text(e.args[0]) if e.args else ''
        val = None
        for k in e.keywords:
            if k.arg == 'value' and isinstance(k.value, ast.Constant):
                val = k.value.value
        return FacetRef('element', tag, val, name, e)
    if isinstance(e, (ast.Name, ast.Attribute)):
        return FacetRef('callable', name=text(e), node=e)
    raise AnalysisError(f'builtin table: unsupported facet `{text(e)[:40]}`')


def builtin_tables(idx: Index) -> dict[str, list[Builtin]]:
    m = idx.module('validators.builtins')
    top = m.assigns.get('BUILTIN_TYPES')
    if not isinstance(top, ast.Dict):
        raise AnalysisError('missing anchor validators.builtins.BUILTIN_TYPES (dict literal)')
    out: dict[str, list[Builtin]] = {}
    for k, v in zip(top.keys, top.values):
        ver = k.value if isinstance(k, ast.Constant) else text(k)
        entries = []
        for d in _resolve_tuple(m, v):
            if not isinstance(d, ast.Dict):
                raise AnalysisError('builtin table: entry is not a dict literal')
            fields = {}
            for kk, vv in zip(d.keys, d.values):
                if not isinstance(kk, ast.Constant):
                    raise AnalysisError('builtin table: non-constant key')
                fields[kk.value] = vv
            b = Builtin(ver, text(fields['name']), d, fields)
            fl = fields.get('facets')
            if fl is not None:
                if not isinstance(fl, (ast.List, ast.Tuple)):
                    raise AnalysisError(f'builtin table: facets of {b.name} is not a list literal')
                b.facets = [_facet(m, e) for e in fl.elts]
            entries.append(b)
        out[ver] = entries
    return out


def chain(table: list[Builtin], b: Builtin) -> list[Builtin]:
    """b and its ancestors along base_type (within one version table)."""
    by = {x.name: x for x in table}
    out = [b]
    seen = {b.name}
    while out[-1].base is not None:
        nb = by.get(out[-1].base)
        if nb is None or nb.name in seen:
            break
        out.append(nb)
        seen.add(nb.name)
    return out


def literal_dict(m: ModuleInfo, name: str) -> dict:
    node = m.assigns.get(name)
    if node is None:
        raise AnalysisError(f'missing anchor {m.name}.{name}')
    try:
        return ast.literal_eval(node)
    except Exception:
        raise AnalysisError(f'{m.name}.{name} is not a literal')


def literal_value(m: ModuleInfo, name: str) -> Any:
    node = m.assigns.get(name)
    if node is None:
        raise AnalysisError(f'missing anchor {m.name}.{name}')
    try:
        return ast.literal_eval(node)
    except Exception:
        raise AnalysisError(f'{m.name}.{name} is not a literal')
