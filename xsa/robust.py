"""Robustness of the rules against behaviour-preserving renames of locals (see roles.py).

For a function the rules of a property analyse, a variant renames one local (or, ``name == '*'``, every local at once,
``except … as`` names included) through the in-memory overlay and re-runs the quick rules: the outcome must be silent.
The thorough tier runs the all-at-once variant of every analysed function; ``tools/rename_robustness.py`` runs the
full sweep (one variant per local)."""
from __future__ import annotations

import ast
import importlib
import os
from concurrent.futures import ProcessPoolExecutor

from .index import AnalysisError, Index
from .report import collect

TYPED = {'C05', 'C09', 'C10', 'C18'}


def locals_of(fnode):
    params = {a.arg for a in fnode.args.posonlyargs + fnode.args.args + fnode.args.kwonlyargs}
    if fnode.args.vararg:
        params.add(fnode.args.vararg.arg)
    if fnode.args.kwarg:
        params.add(fnode.args.kwarg.arg)
    bound = set()
    for n in ast.walk(fnode):
        if isinstance(n, ast.Name) and isinstance(n.ctx, ast.Store):
            bound.add(n.id)
        elif isinstance(n, ast.ExceptHandler) and n.name:
            pass   # `except … as err` – renaming needs the handler too: skipped
        elif isinstance(n, (ast.Global, ast.Nonlocal)):
            params.update(n.names)
    handler_names = {n.name for n in ast.walk(fnode) if isinstance(n, ast.ExceptHandler) and n.name}
    nested_params = {a.arg for n in ast.walk(fnode) if n is not fnode and isinstance(n, (ast.FunctionDef, ast.AsyncFunctionDef, ast.Lambda))
                     for a in ast.walk(n.args) if isinstance(a, ast.arg)}
    return sorted((bound | handler_names) - params - nested_params - {'_'})


def rename(src: str, fnode, name: str, new: str) -> str:
    lines = src.split('\n')
    edits = []
    for n in ast.walk(fnode):
        if isinstance(n, ast.Name) and n.id == name:
            edits.append((n.lineno, n.col_offset, n.end_col_offset))
        elif isinstance(n, ast.ExceptHandler) and n.name == name:
            # `except T as name:` — the name is the last identifier of the header line(s)
            hdr_end = n.body[0].lineno
            for ln in range(n.lineno, hdr_end + 1):
                line = lines[ln - 1]
                k = line.find(f' as {name}:')
                if k >= 0:
                    c0 = len(line[:k + 4].encode('utf-8'))
                    edits.append((ln, c0, c0 + len(name.encode())))
                    break
            else:
                return src
        elif isinstance(n, ast.MatchAs) and n.name == name:
            return src   # pattern capture: skip
    for ln, c0, c1 in sorted(set(edits), reverse=True):
        line = lines[ln - 1]
        b = line.encode('utf-8')
        if b[c0:c1].decode('utf-8') != name:
            return src
        lines[ln - 1] = (b[:c0] + new.encode() + b[c1:]).decode('utf-8')
    return '\n'.join(lines)


def run_one(args):
    prop, rel, qual, name = args[:4]
    repo = args[4] if len(args) > 4 else None
    mod = importlib.import_module(f'xsa.rules.{prop.lower()}')
    os.environ['XSA_NO_ROLES'] = '1'
    idx0 = Index(repo) if repo else Index()
    os.environ.pop('XSA_NO_ROLES')
    f = idx0.functions[qual]
    src = f.module.source
    if name == '*':
        # every local of the function at once
        new = src
        for nm in locals_of(f.node):
            fn = next(x for x in ast.walk(ast.parse(new)) if isinstance(x, (ast.FunctionDef, ast.AsyncFunctionDef))
                      and x.name == f.node.name and x.lineno == f.node.lineno)
            new = rename(new, fn, nm, nm + '_rn')
    else:
        new = rename(src, f.node, name, name + '_rn')
    if new == src:
        return (qual, name, 'skip', '')
    try:
        ast.parse(new)
    except SyntaxError:
        return (qual, name, 'skip', 'syntax')
    try:
        idx = Index(repo, overlay={rel: new}) if repo else Index(overlay={rel: new})
        ctx, viol, known = collect(prop, list(mod.RULES), 'quick', idx)
    except AnalysisError as e:
        return (qual, name, 'error', str(e)[:160])
    except Exception as e:
        return (qual, name, 'error', f'internal {type(e).__name__}: {e}'[:160])
    if viol:
        return (qual, name, 'alarm', f'{viol[0].rule} {viol[0].instance[:110]}')
    return (qual, name, 'ok', '')


def jobs_for(prop: str, idx: Index, analysed, star_only: bool) -> list:
    jobs = []
    for q in sorted(analysed):
        f = idx.functions.get(q)
        if f is None or isinstance(f.node, ast.Lambda):
            continue
        names = locals_of(f.node)
        if not star_only:
            for name in names:
                jobs.append((prop, f.module.relpath, q, name))
        if len(names) > 1 or (star_only and names):
            jobs.append((prop, f.module.relpath, q, '*'))
    return jobs


def sweep(prop: str, star_only: bool = False, cap: int = 0, workers: int = 14, repo: str = '') -> list:
    mod = importlib.import_module(f'xsa.rules.{prop.lower()}')
    idx = Index(repo) if repo else Index()
    ctx, viol, known = collect(prop, list(mod.RULES), 'quick', idx)
    jobs = jobs_for(prop, idx, ctx.functions_analysed, star_only)
    if repo:
        jobs = [j + (repo,) for j in jobs]
    if cap and len(jobs) > cap:
        step = len(jobs) / cap
        jobs = [jobs[int(i * step)] for i in range(cap)]
    res = []
    if not jobs:
        return res
    with ProcessPoolExecutor(max_workers=min(workers, len(jobs))) as ex:
        for r in ex.map(run_one, jobs, chunksize=2 if len(jobs) < 60 else 4):
            res.append(r)
    return res
