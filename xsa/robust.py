"""Robustness of the rules against behaviour-preserving renames of locals (see roles.py).

For a function the rules of a property analyse, a variant renames one local (or, ``name == '*'``, every local at once,
``except … as`` names included) through the in-memory overlay and re-runs the quick rules: the outcome must be silent.
The thorough tier runs the all-at-once variant of every analysed function; ``tools/rename_robustness.py`` runs the
full sweep (one variant per local)."""
from __future__ import annotations

import ast
import importlib
import os
from concurrent.futures import ProcessPoolExecutor

from .index import AnalysisError, Index
from .report import collect

TYPED = {'C05', 'C09', 'C10', 'C18'}


def locals_of(fnode):
    params = {a.arg for a in fnode.args.posonlyargs + fnode.args.args + fnode.args.kwonlyargs}
    if fnode.args.vararg:
        params.add(fnode.args.vararg.arg)
    if fnode.args.kwarg:
        params.add(fnode.args.kwarg.arg)
    bound = set()
    for n in ast.walk(fnode):
        if isinstance(n, ast.Name) and isinstance(n.ctx, ast.Store):
            bound.add(n.id)
        elif isinstance(n, ast.ExceptHandler) and n.name:
            pass   # `except … as err` – renaming needs the handler too: skipped
        elif isinstance(n, (ast.Global, ast.Nonlocal)):
            params.update(n.names)
    handler_names = {n.name for n in ast.walk(fnode) if isinstance(n, ast.ExceptHandler) and n.name}
    nested_params = {a.arg for n in ast.walk(fnode) if n is not fnode and isinstance(n, (ast.FunctionDef, ast.AsyncFunctionDef, ast.Lambda))
                     for a in ast.walk(n.args) if isinstance(a, ast.arg)}
    return sorted((bound | handler_names) - params - nested_params - {'_'})


def rename(src: str, fnode, name: str, new: str) -> str:
    lines = src.split('\n')
    edits = []
    for n in ast.walk(fnode):
        if isinstance(n, ast.Name) and n.id == name:
            edits.append((n.lineno, n.col_offset, n.end_col_offset))
        elif isinstance(n, ast.ExceptHandler) and n.name == name:
            # `except T as name:` — the name is the last identifier of the header line(s)
            hdr_end = n.body[0].lineno
            for ln in range(n.lineno, hdr_end + 1):
                line = lines[ln - 1]
                k = line.find(f' as {name}:')
                if k >= 0:
                    c0 = len(line[:k + 4].encode('utf-8'))
                    edits.append((ln, c0, c0 + len(name.encode())))
                    break
            else:
                return src
        elif isinstance(n, ast.MatchAs) and n.name == name:
            return src   # pattern capture: skip
    for ln, c0, c1 in sorted(set(edits), reverse=True):
        line = lines[ln - 1]
        b = line.encode('utf-8')
        if b[c0:c1].decode('utf-8') != name:
            return src
        lines[ln - 1] = (b[:c0] + new.encode() + b[c1:]).decode('utf-8')
    return '\n'.join(lines)


def run_one(args):
    prop, rel, qual, name = args[:4]
    repo = args[4] if len(args) > 4 else None
    mod = importlib.import_module(f'xsa.rules.{prop.lower()}')
    os.environ['XSA_NO_ROLES'] = '1'
    idx0 = Index(repo) if repo else Index()
    os.environ.pop('XSA_NO_ROLES')
    f = idx0.functions[qual]
    src = f.module.source
    if name == '*':
        # every local of the function at once
        new = src
        for nm in locals_of(f.node):
            fn = next(x for x in ast.walk(ast.parse(new)) if isinstance(x, (ast.FunctionDef, ast.AsyncFunctionDef))
                      and x.name == f.node.name and x.lineno == f.node.lineno)
            new = rename(new, fn, nm, nm + '_rn')
    else:
        new = rename(src, f.node, name, name + '_rn')
    if new == src:
        return (qual, name, 'skip', '')
    try:
        ast.parse(new)
    except SyntaxError:
        return (qual, name, 'skip', 'syntax')
    try:
        idx = Index(repo, overlay={rel: new}) if repo else Index(overlay={rel: new})
        ctx, viol, known = collect(prop, list(mod.RULES), 'quick', idx)
    except AnalysisError as e:
        return (qual, name, 'error', str(e)[:160])
    except Exception as e:
        return (qual, name, 'error', f'internal {type(e).__name__}: {e}'[:160])
    if viol:
        return (qual, name, 'alarm', f'{viol[0].rule} {viol[0].instance[:110]}')
    return (qual, name, 'ok', '')


def jobs_for(prop: str, idx: Index, analysed, star_only: bool) -> list:
    jobs = []
    for q in sorted(analysed):
        f = idx.functions.get(q)
        if f is None or isinstance(f.node, ast.Lambda):
            continue
        names = locals_of(f.node)
        if not star_only:
            for name in names:
                jobs.append((prop, f.module.relpath, q, name))
        if len(names) > 1 or (star_only and names):
            jobs.append((prop, f.module.relpath, q, '*'))
    return jobs


def sweep(prop: str, star_only: bool = False, cap: int = 0, workers: int = 14, repo: str = '') -> list:
    mod = importlib.import_module(f'xsa.rules.{prop.lower()}')
    idx = Index(repo) if repo else Index()
    ctx, viol, known = collect(prop, list(mod.RULES), 'quick', idx)
    jobs = jobs_for(prop, idx, ctx.functions_analysed, star_only)
    if repo:
        jobs = [j + (repo,) for j in jobs]
    if cap and len(jobs) > cap:
        step = len(jobs) / cap
        jobs = [jobs[int(i * step)] for i in range(cap)]
    res = []
    if not jobs:
        return res
    with ProcessPoolExecutor(max_workers=min(workers, len(jobs))) as ex:
        for r in ex.map(run_one, jobs, chunksize=2 if len(jobs) < 60 else 4):
            res.append(r)
    return res


# ---------------------------------------------------------------------------------------------------------------------
# behaviour-preserving rewrites of statements (applied to every applicable site of one function at once)

class _SwapCompare(ast.NodeTransformer):
    """a == b -> b == a (also !=, is, is not); a < b -> b > a"""
    MIR = {ast.Lt: ast.Gt, ast.Gt: ast.Lt, ast.LtE: ast.GtE, ast.GtE: ast.LtE}

    def visit_Compare(self, n: ast.Compare):
        self.generic_visit(n)
        if len(n.ops) != 1:
            return n
        op = n.ops[0]
        if isinstance(op, (ast.Eq, ast.NotEq, ast.Is, ast.IsNot)):
            if isinstance(n.comparators[0], ast.Constant) and n.comparators[0].value is None:
                return n       # `None is x` is unidiomatic: nobody writes it
            return ast.Compare(left=n.comparators[0], ops=[op], comparators=[n.left])
        if type(op) in self.MIR:
            return ast.Compare(left=n.comparators[0], ops=[self.MIR[type(op)]()], comparators=[n.left])
        return n


class _InvertIf(ast.NodeTransformer):
    """if c: A else: B  ->  if not c: B else: A   (plain two-branch ifs only, no elif chains)"""
    def visit_If(self, n: ast.If):
        self.generic_visit(n)
        if not n.orelse or (len(n.orelse) == 1 and isinstance(n.orelse[0], ast.If)):
            return n
        if len(n.body) == 1 and isinstance(n.body[0], ast.If):
            return n
        t = n.test
        if isinstance(t, ast.UnaryOp) and isinstance(t.op, ast.Not):
            nt = t.operand
        elif isinstance(t, ast.Compare) and len(t.ops) == 1 and type(t.ops[0]) in _NEG:
            nt = ast.Compare(left=t.left, ops=[_NEG[type(t.ops[0])]()], comparators=t.comparators)
        else:
            nt = ast.UnaryOp(op=ast.Not(), operand=t)
        return ast.If(test=nt, body=n.orelse, orelse=n.body)


_NEG = {ast.Eq: ast.NotEq, ast.NotEq: ast.Eq, ast.Is: ast.IsNot, ast.IsNot: ast.Is, ast.In: ast.NotIn, ast.NotIn: ast.In}


class _SplitAnd(ast.NodeTransformer):
    """if a and b: S   ->   if a: if b: S      (no else branch)"""
    def visit_If(self, n: ast.If):
        self.generic_visit(n)
        if n.orelse or not (isinstance(n.test, ast.BoolOp) and isinstance(n.test.op, ast.And)):
            return n
        vals = n.test.values
        inner = ast.If(test=vals[-1] if len(vals) == 2 else ast.BoolOp(op=ast.And(), values=vals[1:]), body=n.body, orelse=[])
        return ast.If(test=vals[0], body=[inner], orelse=[])


class _NoOp(ast.NodeTransformer):
    """a logging call at the start of the function and of every loop body"""
    def _stmt(self):
        return ast.parse("logger.debug('trace')").body[0]

    def visit_For(self, n):
        self.generic_visit(n)
        n.body = [self._stmt()] + n.body
        return n

    visit_While = visit_For


class _Annotate(ast.NodeTransformer):
    """x = v  ->  x: Any = v   (single plain-name targets)"""
    def visit_Assign(self, n: ast.Assign):
        if len(n.targets) == 1 and isinstance(n.targets[0], ast.Name):
            return ast.AnnAssign(target=n.targets[0], annotation=ast.Name(id='Any', ctx=ast.Load()), value=n.value, simple=1)
        return n


class _Cast(ast.NodeTransformer):
    """x = v  ->  x = cast(Any, v)   (single plain-name targets whose value is a call, attribute or subscript)"""
    def visit_Assign(self, n: ast.Assign):
        if len(n.targets) == 1 and isinstance(n.targets[0], ast.Name) and isinstance(n.value, (ast.Call, ast.Attribute, ast.Subscript)) \
                and not (isinstance(n.value, ast.Call) and ast.unparse(n.value.func) == 'cast'):
            n.value = ast.Call(func=ast.Name(id='cast', ctx=ast.Load()), args=[ast.Name(id='Any', ctx=ast.Load()), n.value], keywords=[])
        return n


class _Assert(ast.NodeTransformer):
    """an `assert` at the start of every loop body"""
    def _stmt(self):
        return ast.parse("assert self is not None").body[0]

    def visit_For(self, n):
        self.generic_visit(n)
        n.body = [self._stmt()] + n.body
        return n

    visit_While = visit_For


class _GuardClause(ast.NodeTransformer):
    """for …: …; if c: S      ->      for …: …; if not c: continue; S     (the if is the last statement of the loop body, no else)"""
    def visit_For(self, n):
        self.generic_visit(n)
        if n.body and isinstance(n.body[-1], ast.If) and not n.body[-1].orelse and not n.orelse:
            last = n.body[-1]
            t = last.test
            if isinstance(t, ast.UnaryOp) and isinstance(t.op, ast.Not):
                nt = t.operand
            elif isinstance(t, ast.Compare) and len(t.ops) == 1 and type(t.ops[0]) in _NEG:
                nt = ast.Compare(left=t.left, ops=[_NEG[type(t.ops[0])]()], comparators=t.comparators)
            else:
                nt = ast.UnaryOp(op=ast.Not(), operand=t)
            n.body = n.body[:-1] + [ast.If(test=nt, body=[ast.Continue()], orelse=[])] + last.body
        return n

    visit_While = visit_For


class _ExtractTest(ast.NodeTransformer):
    """if <test with a call>: …   ->   t_ = <test>; if t_: …      (plain ifs, not elif branches)"""
    def __init__(self):
        self.k = 0

    def _block(self, blk):
        out = []
        for st in blk:
            st = self.visit(st)
            if isinstance(st, ast.If) and any(isinstance(x, ast.Call) for x in ast.walk(st.test)) \
                    and not any(isinstance(x, (ast.NamedExpr, ast.Yield, ast.YieldFrom, ast.Await)) for x in ast.walk(st.test)):
                self.k += 1
                name = f'cond{self.k}_'
                out.append(ast.Assign(targets=[ast.Name(id=name, ctx=ast.Store())], value=st.test, lineno=st.lineno))
                st.test = ast.Name(id=name, ctx=ast.Load())
            out.append(st)
        return out

    def generic_visit(self, node):
        for fld in ('body', 'orelse', 'finalbody'):
            blk = getattr(node, fld, None)
            if isinstance(blk, list) and blk and isinstance(blk[0], ast.stmt):
                if fld == 'orelse' and isinstance(node, ast.If) and len(blk) == 1 and isinstance(blk[0], ast.If):
                    blk[0] = self.generic_visit(blk[0])      # elif chain: left as it is
                    continue
                setattr(node, fld, self._block(blk))
        for h in getattr(node, 'handlers', []) or []:
            h.body = self._block(h.body)
        return node


class _SnapshotIter(ast.NodeTransformer):
    """for v in self.X[.values()]:  ->  for v in tuple(self.X[.values()]):   (iteration over a snapshot of an attribute of self)"""
    def visit_For(self, n: ast.For):
        self.generic_visit(n)
        it = n.iter
        base = it.func.value if isinstance(it, ast.Call) and isinstance(it.func, ast.Attribute) and it.func.attr in ('values', 'items', 'keys') and not it.args else it
        if isinstance(base, ast.Attribute) and isinstance(base.value, ast.Name) and base.value.id == 'self':
            n.iter = ast.Call(func=ast.Name(id='tuple', ctx=ast.Load()), args=[it], keywords=[])
        return n


REWRITES = {'snapshot-iter': _SnapshotIter, 'extract-test': _ExtractTest, 'swap-compare': _SwapCompare, 'invert-if': _InvertIf, 'split-and': _SplitAnd, 'noop-logging': _NoOp,
            'annotate-assign': _Annotate, 'cast-value': _Cast, 'insert-assert': _Assert, 'guard-clause': _GuardClause}


def rewrite(src: str, fnode, kind: str) -> str:
    import copy
    new = copy.deepcopy(fnode)
    body = new.body
    doc = body[:1] if body and isinstance(body[0], ast.Expr) and isinstance(body[0].value, ast.Constant) else []
    tr = REWRITES[kind]()
    if kind == 'extract-test':
        new.body = doc + tr._block(body[len(doc):])
    else:
        new.body = doc + [tr.visit(st) for st in body[len(doc):]]
    if kind == 'noop-logging':
        new.body = doc + [ast.parse("logger.debug('trace')").body[0]] + new.body[len(doc):]
    ast.fix_missing_locations(new)
    code = ast.unparse(new)
    if code == ast.unparse(fnode):
        return src
    first = min([fnode.lineno] + [d.lineno for d in fnode.decorator_list])
    lines = src.split('\n')
    indent = ' ' * fnode.col_offset
    block = [indent + ln if ln else ln for ln in code.split('\n')]
    return '\n'.join(lines[:first - 1] + block + lines[fnode.end_lineno:])


def run_rewrite(args):
    prop, rel, qual, kind = args[:4]
    repo = args[4] if len(args) > 4 else None
    mod = importlib.import_module(f'xsa.rules.{prop.lower()}')
    os.environ['XSA_NO_ROLES'] = '1'
    idx0 = Index(repo) if repo else Index()
    os.environ.pop('XSA_NO_ROLES')
    f = idx0.functions[qual]
    new = rewrite(f.module.source, f.node, kind)
    if new == f.module.source:
        return (qual, kind, 'skip', '')
    try:
        ast.parse(new)
    except SyntaxError as e:
        return (qual, kind, 'skip', f'syntax {e}')
    try:
        idx = Index(repo, overlay={rel: new}) if repo else Index(overlay={rel: new})
        ctx, viol, known = collect(prop, list(mod.RULES), 'quick', idx)
    except AnalysisError as e:
        return (qual, kind, 'error', str(e)[:200])
    except Exception as e:
        return (qual, kind, 'error', f'internal {type(e).__name__}: {e}'[:200])
    if viol:
        return (qual, kind, 'alarm', f'{viol[0].rule} {viol[0].instance[:100]} :: {viol[0].detail[:80]}')
    return (qual, kind, 'ok', '')


def sweep_rewrites(prop: str, kinds=None, workers: int = 14, repo: str = '', cap: int = 0) -> list:
    mod = importlib.import_module(f'xsa.rules.{prop.lower()}')
    idx = Index(repo) if repo else Index()
    ctx, viol, known = collect(prop, list(mod.RULES), 'quick', idx)
    jobs = []
    for q in sorted(ctx.functions_analysed):
        f = idx.functions.get(q)
        if f is None or isinstance(f.node, ast.Lambda):
            continue
        for k in (kinds or REWRITES):
            jobs.append((prop, f.module.relpath, q, k) + ((repo,) if repo else ()))
    if cap and len(jobs) > cap:
        step = len(jobs) / cap
        jobs = [jobs[int(i * step)] for i in range(cap)]
    res = []
    if jobs:
        with ProcessPoolExecutor(max_workers=min(workers, len(jobs))) as ex:
            for r in ex.map(run_rewrite, jobs, chunksize=2):
                res.append(r)
    return res
