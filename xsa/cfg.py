"""L3: statement-level control-flow graphs built by a syntax-directed walk.

Edge kinds
    'n'    normal flow (fall through, loop back, after-branch)
    'T'/'F' the two outcomes of a test node (if/while/for/case/handler dispatch)
    'x'    explicit ``raise`` to a matching handler or to the exceptional exit
    'i'    implicit exception: a node that contains a call may jump to the innermost
           handlers (only consulted when a query asks for it)

Two exits: ``exit`` (return / falling off the end) and ``raise_exit``.
``finally`` bodies are duplicated per way of leaving the ``try`` (normal, return,
break, continue, raise) which keeps every query a plain graph search.
"""
from __future__ import annotations

import ast
from dataclasses import dataclass, field
from typing import Callable, Iterable, Optional

SIMPLE = (ast.Assign, ast.AugAssign, ast.AnnAssign, ast.Expr, ast.Pass, ast.Delete, ast.Import,
          ast.ImportFrom, ast.Global, ast.Nonlocal, ast.Assert, ast.FunctionDef, ast.AsyncFunctionDef,
          ast.ClassDef, ast.TypeAlias if hasattr(ast, 'TypeAlias') else ast.Pass)


@dataclass(eq=False)
class Node:
    id: int
    kind: str                       # entry exit raise_exit stmt if while for with match case handler return raise break continue
    ast: Optional[ast.AST] = None   # the statement (or the handler / match_case)
    exprs: list = field(default_factory=list)   # expressions evaluated at this node
    copy: int = 0                   # >0 for duplicated finally bodies

    @property
    def lineno(self) -> int:
        return getattr(self.ast, 'lineno', 0)

    def __repr__(self) -> str:
        t = ''
        if self.ast is not None and self.kind not in ('entry', 'exit', 'raise_exit'):
            try:
                t = ast.unparse(self.exprs[0] if self.kind in ('if', 'while') and self.exprs else self.ast)
            except Exception:
                t = ''
            t = t.split('\n')[0][:60]
        return f'<{self.id}:{self.kind}@{self.lineno} {t}>'


class _Frame:
    """What the builder needs to know about enclosing constructs."""
    def __init__(self, kind, **kw):
        self.kind = kind            # 'loop' | 'try' | 'finally'
        self.__dict__.update(kw)


class CFG:
    def __init__(self, func: ast.AST, catches: Optional[Callable[[ast.ExceptHandler, ast.AST], Optional[bool]]] = None):
        """``catches(handler, raised_expr)`` → True (definitely), False (definitely not), None (maybe)."""
        self.func = func
        self.nodes: list[Node] = []
        self.succ: dict[Node, list[tuple[Node, str]]] = {}
        self.pred: dict[Node, list[tuple[Node, str]]] = {}
        self._by_ast: dict[int, list[Node]] = {}
        self._owner: dict[int, list[Node]] = {}
        self._catches = catches or default_catches
        self._copy = 0
        self.entry = self._new('entry', func)
        self.exit = self._new('exit', func)
        self.raise_exit = self._new('raise_exit', func)
        self._frames: list[_Frame] = []
        body = func.body if not isinstance(func, ast.Lambda) else [ast.Return(value=func.body)]
        ends = self._block(body, [(self.entry, 'n')])
        for n, lab in ends:
            self._edge(n, self.exit, lab)

    # ----------------------------------------------------------------- building
    def _new(self, kind: str, node: Optional[ast.AST], exprs: Optional[list] = None) -> Node:
        n = Node(len(self.nodes), kind, node, exprs if exprs is not None else [], self._copy)
        self.nodes.append(n)
        self.succ[n] = []
        self.pred[n] = []
        if node is not None and kind not in ('entry', 'exit', 'raise_exit'):
            self._by_ast.setdefault(id(node), []).append(n)
            for e in (exprs if exprs is not None else [node]):
                for sub in _walk_no_nested(e):
                    self._owner.setdefault(id(sub), []).append(n)
        return n

    def _edge(self, a: Node, b: Node, label: str = 'n') -> None:
        if (b, label) not in self.succ[a]:
            self.succ[a].append((b, label))
            self.pred[b].append((a, label))

    def _link(self, pend: list, node: Node) -> None:
        for n, lab in pend:
            self._edge(n, node, lab)

    def _block(self, stmts: list, pend: list) -> list:
        """Build statements; ``pend`` = dangling (node, label) edges; returns new dangling edges."""
        for s in stmts:
            if not pend:
                # unreachable code: still build it so that anchors can be found, from nothing
                pend = []
            pend = self._stmt(s, pend)
        return pend

    def _has_call(self, exprs: Iterable[ast.AST]) -> bool:
        for e in exprs:
            for sub in _walk_no_nested(e):
                if isinstance(sub, (ast.Call, ast.Subscript, ast.Await, ast.Yield, ast.YieldFrom)):
                    return True
                if isinstance(sub, ast.Attribute) and not isinstance(sub.ctx, ast.Store):
                    pass
        return False

    def _implicit(self, node: Node) -> None:
        """Add implicit exception edges from ``node`` to the enclosing handlers."""
        if not self._has_call(node.exprs):
            return
        self._raise_to(node, None, 'i')

    def _raise_to(self, node: Node, exc: Optional[ast.AST], label: str) -> None:
        """Route an exception raised at ``node`` through the frames."""
        pend = [(node, label)]
        for fr in reversed(self._frames):
            if fr.kind == 'try':
                definitely = False
                for h, hnode in fr.handlers:
                    verdict = self._catches(h, exc) if exc is not None else None
                    if h.type is None:
                        verdict = True
                    if verdict is False:
                        continue
                    for n, lab in pend:
                        self._edge(n, hnode, lab)
                    if verdict is True:
                        definitely = True
                        break
                if definitely:
                    return
            elif fr.kind == 'finally':
                # run a copy of the finally body, then continue propagating
                pend = self._finally_copy(fr, pend, label)
                if not pend:
                    return
        for n, lab in pend:
            self._edge(n, self.raise_exit, lab)

    def _finally_copy(self, fr: _Frame, pend: list, label: str) -> list:
        key = ('exc', label)
        if key in fr.copies:
            first, ends = fr.copies[key]
            if first is not None:
                for n, lab in pend:
                    self._edge(n, first, lab)
                return [(e, label) for e, _ in ends]
            return pend
        # build the copy outside of this frame
        idx = self._frames.index(fr)
        saved = self._frames
        self._frames = saved[:idx]
        self._copy += 1
        marker = self._new('finally', fr.node, [])
        for n, lab in pend:
            self._edge(n, marker, lab)
        ends = self._block(fr.body, [(marker, 'n')])
        self._frames = saved
        fr.copies[key] = (marker, ends)
        return [(e, label) for e, _ in ends]

    def _leave(self, node: Node, kind: str) -> None:
        """return / break / continue: pass through enclosing finally bodies."""
        pend = [(node, 'n')]
        for i in range(len(self._frames) - 1, -1, -1):
            fr = self._frames[i]
            if fr.kind == 'finally':
                key = (kind, id(node))
                saved = self._frames
                self._frames = saved[:i]
                self._copy += 1
                marker = self._new('finally', fr.node, [])
                self._link(pend, marker)
                pend = self._block(fr.body, [(marker, 'n')])
                self._frames = saved
            elif fr.kind == 'loop' and kind in ('break', 'continue'):
                if kind == 'break':
                    fr.breaks.extend(pend)
                else:
                    self._link(pend, fr.head)
                return
        if kind == 'return':
            self._link(pend, self.exit)
        else:  # break/continue outside loop (syntax error normally)
            self._link(pend, self.exit)

    def _stmt(self, s: ast.stmt, pend: list) -> list:
        if isinstance(s, ast.If):
            t = self._new('if', s, [s.test])
            self._link(pend, t)
            self._implicit(t)
            cv = _const_truth(s.test)
            a = self._block(s.body, [(t, 'T')]) if cv is not False else []
            if cv is True:
                return a
            b = self._block(s.orelse, [(t, 'F')]) if s.orelse else [(t, 'F')]
            return a + b
        if isinstance(s, (ast.For, ast.AsyncFor)):
            h = self._new('for', s, [s.iter, s.target])
            self._link(pend, h)
            self._implicit(h)
            fr = _Frame('loop', head=h, breaks=[])
            self._frames.append(fr)
            ends = self._block(s.body, [(h, 'T')])
            self._frames.pop()
            self._link(ends, h)
            out = self._block(s.orelse, [(h, 'F')]) if s.orelse else [(h, 'F')]
            return out + fr.breaks
        if isinstance(s, ast.While):
            h = self._new('while', s, [s.test])
            self._link(pend, h)
            self._implicit(h)
            fr = _Frame('loop', head=h, breaks=[])
            self._frames.append(fr)
            ends = self._block(s.body, [(h, 'T')])
            self._frames.pop()
            self._link(ends, h)
            cv = _const_truth(s.test)
            out = []
            if cv is not True:
                out = self._block(s.orelse, [(h, 'F')]) if s.orelse else [(h, 'F')]
            return out + fr.breaks
        if isinstance(s, (ast.With, ast.AsyncWith)):
            w = self._new('with', s, [x for it in s.items for x in ([it.context_expr] + ([it.optional_vars] if it.optional_vars else []))])
            self._link(pend, w)
            self._implicit(w)
            return self._block(s.body, [(w, 'n')])
        if isinstance(s, ast.Try) or (hasattr(ast, 'TryStar') and isinstance(s, ast.TryStar)):
            return self._try(s, pend)
        if isinstance(s, ast.Match):
            m = self._new('match', s, [s.subject])
            self._link(pend, m)
            self._implicit(m)
            out = []
            cur = [(m, 'n')]
            for c in s.cases:
                exprs = [c.pattern] + ([c.guard] if c.guard else [])
                cn = self._new('case', c, exprs)
                self._link(cur, cn)
                out += self._block(c.body, [(cn, 'T')])
                irrefutable = c.guard is None and isinstance(c.pattern, ast.MatchAs) and c.pattern.pattern is None
                cur = [] if irrefutable else [(cn, 'F')]
            return out + cur
        if isinstance(s, ast.Return):
            r = self._new('return', s, [s.value] if s.value is not None else [])
            self._link(pend, r)
            self._implicit(r)
            self._leave(r, 'return')
            return []
        if isinstance(s, ast.Raise):
            r = self._new('raise', s, [x for x in (s.exc, s.cause) if x is not None])
            self._link(pend, r)
            self._raise_to(r, s.exc, 'x')
            return []
        if isinstance(s, ast.Break):
            b = self._new('break', s, [])
            self._link(pend, b)
            self._leave(b, 'break')
            return []
        if isinstance(s, ast.Continue):
            c = self._new('continue', s, [])
            self._link(pend, c)
            self._leave(c, 'continue')
            return []
        # simple statements (incl. nested defs: the definition is one node)
        exprs = None
        if isinstance(s, (ast.FunctionDef, ast.AsyncFunctionDef, ast.ClassDef)):
            exprs = list(s.decorator_list)
        n = self._new('stmt', s, exprs if exprs is not None else [s])
        self._link(pend, n)
        self._implicit(n)
        return [(n, 'n')]

    def _try(self, s, pend: list) -> list:
        has_finally = bool(s.finalbody)
        ffr = None
        if has_finally:
            ffr = _Frame('finally', node=s, body=s.finalbody, copies={})
            self._frames.append(ffr)
        # handler dispatch nodes are created first so that raises in the body can link to them
        handlers = []
        for h in s.handlers:
            hn = self._new('handler', h, [h.type] if h.type is not None else [])
            handlers.append((h, hn))
        tfr = _Frame('try', handlers=handlers)
        self._frames.append(tfr)
        t = self._new('try', s, [])
        self._link(pend, t)
        body_ends = self._block(s.body, [(t, 'n')])
        self._frames.pop()
        if s.orelse:
            body_ends = self._block(s.orelse, body_ends)
        ends = list(body_ends)
        for h, hn in handlers:
            ends += self._block(h.body, [(hn, 'n')])
        if has_finally:
            self._frames.pop()
            self._copy += 1
            marker = self._new('finally', s, [])
            self._link(ends, marker)
            ends = self._block(s.finalbody, [(marker, 'n')])
        return ends

    # ------------------------------------------------------------------ lookups
    def nodes_of(self, a: ast.AST) -> list[Node]:
        """CFG nodes created for statement / handler / case ``a`` (several if inside a duplicated finally)."""
        return list(self._by_ast.get(id(a), []))

    def owners(self, expr: ast.AST) -> list[Node]:
        """CFG nodes at which expression ``expr`` is evaluated."""
        return list(self._owner.get(id(expr), []))

    def find(self, pred: Callable[[Node], bool]) -> list[Node]:
        return [n for n in self.nodes if pred(n)]

    def stmt_nodes(self) -> list[Node]:
        return [n for n in self.nodes if n.kind not in ('entry', 'exit', 'raise_exit', 'try', 'finally')]

    # ------------------------------------------------------------------ queries
    def successors(self, n: Node, kinds: str = 'nTFx') -> list[Node]:
        return [m for m, lab in self.succ[n] if lab in kinds]

    def reachable(self, starts: Iterable[Node], avoid: Iterable[Node] = (), kinds: str = 'nTFx',
                  start_edges: Optional[Iterable[tuple[Node, str]]] = None) -> set[Node]:
        """Nodes reachable from ``starts`` (inclusive) without entering ``avoid`` nodes."""
        avoid = set(avoid)
        seen: set[Node] = set()
        stack = []
        if start_edges is not None:
            for n, lab in start_edges:
                for m, l2 in self.succ[n]:
                    if l2 == lab and m not in avoid:
                        stack.append(m)
        else:
            stack = [s for s in starts if s not in avoid]
        while stack:
            n = stack.pop()
            if n in seen:
                continue
            seen.add(n)
            for m, lab in self.succ[n]:
                if lab in kinds and m not in avoid and m not in seen:
                    stack.append(m)
        return seen

    def path(self, start: Node, goals: Iterable[Node], avoid: Iterable[Node] = (), kinds: str = 'nTFx') -> Optional[list[Node]]:
        """A shortest path start→goal avoiding ``avoid`` (for diagnostics)."""
        goals = set(goals)
        avoid = set(avoid)
        from collections import deque
        prev = {start: None}
        dq = deque([start])
        while dq:
            n = dq.popleft()
            if n in goals and n is not start:
                out = []
                while n is not None:
                    out.append(n)
                    n = prev[n]
                return list(reversed(out))
            for m, lab in self.succ[n]:
                if lab in kinds and m not in avoid and m not in prev:
                    prev[m] = n
                    dq.append(m)
        return None

    def must_pass(self, start: Node, goals: Iterable[Node], through: Iterable[Node], kinds: str = 'nTFx') -> Optional[list[Node]]:
        """None if every path from ``start`` to a goal meets a ``through`` node; else a witness path."""
        through = set(through)
        goals = set(goals) - through
        if start in through:
            return None
        return self.path(start, goals, avoid=through, kinds=kinds)

    def dominators(self, kinds: str = 'nTFx', reverse: bool = False, roots: Optional[list[Node]] = None) -> dict[Node, set[Node]]:
        """Classic iterative dominator sets (post-dominators with reverse=True)."""
        if reverse:
            roots = roots or [self.exit]
            nxt = lambda n: [m for m, lab in self.pred[n] if lab in kinds]
            prv = lambda n: [m for m, lab in self.succ[n] if lab in kinds]
        else:
            roots = roots or [self.entry]
            nxt = lambda n: [m for m, lab in self.succ[n] if lab in kinds]
            prv = lambda n: [m for m, lab in self.pred[n] if lab in kinds]
        # restrict to nodes reachable from roots in this direction
        order = []
        seen = set()
        stack = list(roots)
        while stack:
            n = stack.pop()
            if n in seen:
                continue
            seen.add(n)
            order.append(n)
            stack.extend(nxt(n))
        allset = set(order)
        dom = {n: set(allset) for n in order}
        for r in roots:
            dom[r] = {r}
        changed = True
        while changed:
            changed = False
            for n in order:
                if n in roots:
                    continue
                ps = [dom[p] for p in prv(n) if p in dom]
                new = set.intersection(*ps) if ps else set()
                new = new | {n}
                if new != dom[n]:
                    dom[n] = new
                    changed = True
        return dom

    def control_dependence(self, kinds: str = 'nTFx', transitive: bool = True,
                           both_exits: bool = True) -> dict[Node, set[tuple[Node, str]]]:
        """node -> set of (branch node, label) it is control dependent on (Ferrante et al.)."""
        roots = [self.exit] + ([self.raise_exit] if both_exits else [])
        # virtual root: treat both exits as roots (a node post-dominated by either)
        pdom = self.dominators(kinds=kinds, reverse=True, roots=roots) if len(roots) == 1 else self._pdom_virtual(kinds)
        cd: dict[Node, set[tuple[Node, str]]] = {n: set() for n in self.nodes}
        for a in self.nodes:
            outs = [(m, lab) for m, lab in self.succ[a] if lab in kinds]
            if len(outs) < 2:
                continue
            for b, lab in outs:
                if b not in pdom:
                    continue
                # nodes that post-dominate b but do not strictly post-dominate a
                spd_a = pdom.get(a, set()) - {a}
                for n in pdom[b]:
                    if n not in spd_a:
                        cd[n].add((a, lab))
        if transitive:
            changed = True
            while changed:
                changed = False
                for n in self.nodes:
                    add = set()
                    for (b, lab) in cd[n]:
                        add |= cd[b]
                    if not add <= cd[n]:
                        cd[n] |= add
                        changed = True
        return cd

    def _pdom_virtual(self, kinds: str) -> dict[Node, set[Node]]:
        virt = Node(-1, 'virtual')
        self.succ[virt] = []
        self.pred[virt] = [(self.exit, 'n'), (self.raise_exit, 'n')]
        self.succ[self.exit].append((virt, 'n'))
        self.succ[self.raise_exit].append((virt, 'n'))
        try:
            pd = self.dominators(kinds=kinds, reverse=True, roots=[virt])
        finally:
            self.succ[self.exit].remove((virt, 'n'))
            self.succ[self.raise_exit].remove((virt, 'n'))
            del self.succ[virt]
            del self.pred[virt]
        for n in pd:
            pd[n].discard(virt)
        pd.pop(virt, None)
        return pd

    # ------------------------------------------------------- reaching definitions
    def reaching_defs(self, kinds: str = 'nTFx') -> dict[Node, dict[str, set[Node]]]:
        """IN sets: for each node, variable name -> set of definition nodes reaching its entry.
        Parameters are defined at ``entry``."""
        gen: dict[Node, set[str]] = {}
        for n in self.nodes:
            gen[n] = set(defined_names(n))
        a = self.func.args if hasattr(self.func, 'args') else None
        if a is not None:
            names = [x.arg for x in a.posonlyargs + a.args + a.kwonlyargs]
            if a.vararg:
                names.append(a.vararg.arg)
            if a.kwarg:
                names.append(a.kwarg.arg)
            gen[self.entry] = set(names)
        IN: dict[Node, dict[str, set[Node]]] = {n: {} for n in self.nodes}
        OUT: dict[Node, dict[str, set[Node]]] = {n: {} for n in self.nodes}
        work = list(self.nodes)
        inwork = set(work)
        while work:
            n = work.pop(0)
            inwork.discard(n)
            new_in: dict[str, set[Node]] = {}
            for p, lab in self.pred[n]:
                if lab not in kinds:
                    continue
                for v, ds in OUT[p].items():
                    new_in.setdefault(v, set()).update(ds)
            IN[n] = new_in
            out = {v: set(ds) for v, ds in new_in.items()}
            for v in gen[n]:
                out[v] = {n}
            if out != OUT[n]:
                OUT[n] = out
                for m, lab in self.succ[n]:
                    if lab in kinds and m not in inwork:
                        work.append(m)
                        inwork.add(m)
        return IN


def defined_names(n: Node) -> list[str]:
    """Local names (re)bound at CFG node ``n``."""
    out: list[str] = []
    a = n.ast
    if a is None:
        return out

    def targets(t):
        if isinstance(t, ast.Name):
            out.append(t.id)
        elif isinstance(t, (ast.Tuple, ast.List)):
            for e in t.elts:
                targets(e)
        elif isinstance(t, ast.Starred):
            targets(t.value)

    if n.kind == 'stmt':
        if isinstance(a, ast.Assign):
            for t in a.targets:
                targets(t)
        elif isinstance(a, (ast.AugAssign, ast.AnnAssign)):
            if not (isinstance(a, ast.AnnAssign) and a.value is None):
                targets(a.target)
        elif isinstance(a, (ast.FunctionDef, ast.AsyncFunctionDef, ast.ClassDef)):
            out.append(a.name)
        elif isinstance(a, (ast.Import, ast.ImportFrom)):
            for al in a.names:
                out.append((al.asname or al.name).split('.')[0])
    elif n.kind == 'for':
        targets(a.target)
    elif n.kind == 'with':
        for it in a.items:
            if it.optional_vars is not None:
                targets(it.optional_vars)
    elif n.kind == 'handler':
        if a.name:
            out.append(a.name)
    elif n.kind == 'case':
        for sub in ast.walk(a.pattern):
            if isinstance(sub, ast.MatchAs) and sub.name:
                out.append(sub.name)
            elif isinstance(sub, ast.MatchStar) and sub.name:
                out.append(sub.name)
            elif isinstance(sub, ast.MatchMapping) and sub.rest:
                out.append(sub.rest)
    # walrus anywhere in the node's expressions
    for e in n.exprs:
        for sub in _walk_no_nested(e):
            if isinstance(sub, ast.NamedExpr):
                targets(sub.target)
    return out


def _walk_no_nested(node: ast.AST):
    """ast.walk that does not enter nested function/class bodies or lambdas' bodies
    (comprehensions are entered: they are evaluated at the statement)."""
    stack = [node]
    while stack:
        n = stack.pop()
        yield n
        for ch in ast.iter_child_nodes(n):
            if isinstance(ch, (ast.FunctionDef, ast.AsyncFunctionDef, ast.ClassDef, ast.Lambda)):
                yield ch
                continue
            stack.append(ch)


def _const_truth(e: ast.AST) -> Optional[bool]:
    if isinstance(e, ast.Constant):
        return bool(e.value)
    return None


def default_catches(handler: ast.ExceptHandler, raised: Optional[ast.AST]) -> Optional[bool]:
    """Name-based: True if the raised class name is literally listed, None otherwise."""
    if handler.type is None:
        return True
    names = _handler_names(handler)
    if 'BaseException' in names or 'Exception' in names:
        return True
    if raised is None:
        return None
    r = raised.func if isinstance(raised, ast.Call) else raised
    rn = r.attr if isinstance(r, ast.Attribute) else (r.id if isinstance(r, ast.Name) else None)
    if rn is None:
        return None
    if rn in names:
        return True
    return None


def _handler_names(handler: ast.ExceptHandler) -> set[str]:
    t = handler.type
    if t is None:
        return set()
    elts = t.elts if isinstance(t, ast.Tuple) else [t]
    out = set()
    for e in elts:
        if isinstance(e, ast.Attribute):
            out.add(e.attr)
        elif isinstance(e, ast.Name):
            out.add(e.id)
    return out


def handler_names(handler: ast.ExceptHandler) -> set[str]:
    return _handler_names(handler)
